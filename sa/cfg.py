"""Statement-level control-flow graph for one function (design §2.2).

Nodes are integers; ``cfg.stmt[n]`` is the ast statement (or the test
expression owner for if/while/for) and ``cfg.kind[n]`` one of
'entry','exit','raise','stmt','test','loop','handler'.
Edges carry a label: None, True, False, 'exc'.
"""
from __future__ import annotations

import ast

from .frontend import AnalysisError


class CFG:
    def __init__(self, fnode, fallible=None):
        """fallible: predicate(stmt) -> bool: statement may raise (adds an
        exceptional edge to the innermost handler / raise-exit)."""
        self.fnode = fnode
        self.succ: dict[int, list] = {}
        self.pred: dict[int, list] = {}
        self.stmt: dict[int, ast.AST] = {}
        self.kind: dict[int, str] = {}
        self.node_of: dict[int, int] = {}   # id(ast stmt) -> cfg node
        self._n = 0
        self.fallible = fallible or (lambda s: False)
        self.entry = self._new(None, "entry")
        self.exit = self._new(None, "exit")
        self.raise_exit = self._new(None, "raise")
        self._loops = []      # (continue_target, break_target)
        self._handlers = []   # stack of handler-entry node lists
        self._finally = []
        ends = self._block(fnode.body, [(self.entry, None)])
        for e in ends:
            self._edge(e, self.exit)

    # ------------------------------------------------------------ construction
    def _new(self, stmt, kind):
        n = self._n
        self._n += 1
        self.succ[n] = []
        self.pred[n] = []
        self.stmt[n] = stmt
        self.kind[n] = kind
        if stmt is not None and id(stmt) not in self.node_of:
            self.node_of[id(stmt)] = n
        return n

    def _edge(self, src, dst):
        s, label = src if isinstance(src, tuple) else (src, None)
        if (dst, label) not in self.succ[s]:
            self.succ[s].append((dst, label))
            self.pred[dst].append((s, label))

    def _exc_target(self):
        if self._handlers:
            return self._handlers[-1]
        return [self.raise_exit]

    def _block(self, body, incoming):
        cur = incoming
        for s in body:
            if not cur:
                # unreachable code: still build it, but with no predecessors
                cur = []
            cur = self._stmt(s, cur)
        return cur

    def _stmt(self, s, incoming):
        if isinstance(s, ast.If):
            n = self._new(s, "test")
            for i in incoming:
                self._edge(i, n)
            t = self._block(s.body, [(n, True)])
            f = self._block(s.orelse, [(n, False)]) if s.orelse else [(n, False)]
            return t + f
        if isinstance(s, (ast.While, ast.For, ast.AsyncFor)):
            n = self._new(s, "loop")
            for i in incoming:
                self._edge(i, n)
            brk = []
            self._loops.append((n, brk))
            ends = self._block(s.body, [(n, True)])
            self._loops.pop()
            for e in ends:
                self._edge(e, n)
            const_true = isinstance(s, ast.While) and isinstance(s.test, ast.Constant) and bool(s.test.value)
            out = []
            if not const_true:
                out = self._block(s.orelse, [(n, False)]) if s.orelse else [(n, False)]
            return out + brk
        if isinstance(s, ast.Break):
            n = self._new(s, "stmt")
            for i in incoming:
                self._edge(i, n)
            self._loops[-1][1].append((n, None))
            return []
        if isinstance(s, ast.Continue):
            n = self._new(s, "stmt")
            for i in incoming:
                self._edge(i, n)
            self._edge(n, self._loops[-1][0])
            return []
        if isinstance(s, ast.Return):
            n = self._new(s, "stmt")
            for i in incoming:
                self._edge(i, n)
            if self._finally:
                # run innermost finally blocks inline (approximation: jump to exit through them)
                pass
            self._edge(n, self.exit)
            return []
        if isinstance(s, ast.Raise):
            n = self._new(s, "stmt")
            for i in incoming:
                self._edge(i, n)
            for h in self._exc_target():
                self._edge((n, "exc"), h)
            return []
        if isinstance(s, ast.Assert):
            n = self._new(s, "stmt")
            for i in incoming:
                self._edge(i, n)
            for h in self._exc_target():
                self._edge((n, "exc"), h)
            return [(n, None)]
        if isinstance(s, ast.Try):
            hnodes = []
            for h in s.handlers:
                hn = self._new(h, "handler")
                hnodes.append(hn)
            self._handlers.append(hnodes if hnodes else self._exc_target())
            body_ends = self._block(s.body, incoming)
            self._handlers.pop()
            else_ends = self._block(s.orelse, body_ends) if s.orelse else body_ends
            hends = []
            for h, hn in zip(s.handlers, hnodes):
                hends += self._block(h.body, [(hn, None)])
            allends = else_ends + hends
            if s.finalbody:
                allends = self._block(s.finalbody, allends)
            return allends
        if isinstance(s, (ast.With, ast.AsyncWith)):
            n = self._new(s, "stmt")
            for i in incoming:
                self._edge(i, n)
            if self.fallible(s):
                for h in self._exc_target():
                    self._edge((n, "exc"), h)
            return self._block(s.body, [(n, None)])
        if isinstance(s, (ast.FunctionDef, ast.AsyncFunctionDef, ast.ClassDef)):
            n = self._new(s, "stmt")
            for i in incoming:
                self._edge(i, n)
            return [(n, None)]
        if isinstance(s, ast.Match):
            raise AnalysisError("match statement not modelled in CFG")
        # simple statement
        n = self._new(s, "stmt")
        for i in incoming:
            self._edge(i, n)
        if self.fallible(s):
            for h in self._exc_target():
                self._edge((n, "exc"), h)
        return [(n, None)]

    # ------------------------------------------------------------ queries
    def nodes(self):
        return list(self.succ)

    def reachable(self, start=None, avoid=(), follow_exc=True):
        start = self.entry if start is None else start
        seen, todo = set(), [start]
        while todo:
            n = todo.pop()
            if n in seen or n in avoid:
                continue
            seen.add(n)
            for d, lab in self.succ[n]:
                if lab == "exc" and not follow_exc:
                    continue
                todo.append(d)
        return seen

    def dominators(self):
        nodes = [n for n in self.reachable()]
        dom = {n: set(nodes) for n in nodes}
        dom[self.entry] = {self.entry}
        changed = True
        while changed:
            changed = False
            for n in nodes:
                if n == self.entry:
                    continue
                preds = [p for p, _ in self.pred[n] if p in dom]
                new = set.intersection(*[dom[p] for p in preds]) if preds else set()
                new = new | {n}
                if new != dom[n]:
                    dom[n] = new
                    changed = True
        return dom

    def must_pass(self, target, through, start=None, follow_exc=False):
        """True iff every path start->target passes a node in ``through``."""
        start = self.entry if start is None else start
        if start in through:
            return True
        r = self.reachable(start, avoid=set(through), follow_exc=follow_exc)
        return target not in r

    def node(self, stmt):
        return self.node_of.get(id(stmt))

    def paths(self, start, stop_at, limit=256, follow_exc=False, region=None):
        """Enumerate acyclic paths from ``start`` until a node in ``stop_at`` is
        reached (inclusive).  Each path is a list of (node, label_taken)."""
        out = []

        def rec(n, path, seen):
            if len(out) > limit:
                raise AnalysisError("path bound exceeded (%d)" % limit)
            if n in stop_at and path:
                out.append(path + [(n, None)])
                return
            if n in seen:
                return
            if region is not None and n not in region and path:
                return
            succs = [(d, l) for d, l in self.succ[n] if follow_exc or l != "exc"]
            if not succs:
                out.append(path + [(n, None)])
                return
            for d, l in succs:
                rec(d, path + [(n, l)], seen | {n})

        rec(start, [], set())
        return out


def loop_body_nodes(cfg: CFG, loop_stmt):
    """cfg nodes belonging to the body of a loop statement."""
    ids = set()
    for s in loop_stmt.body:
        for x in ast.walk(s):
            if id(x) in cfg.node_of:
                ids.add(cfg.node_of[id(x)])
    return ids
