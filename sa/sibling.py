"""Sibling diff (design §2.6): compare two duplicated code blocks statement by
statement after a declared substitution; report statements without counterpart."""
from __future__ import annotations

import ast
import difflib

from .astutil import clone
from .report import norm_text


def rename(node, mapping):
    """Copy of node with Name ids / attribute names / keyword names / string constants renamed by mapping."""
    n = clone(node)
    for x in ast.walk(n):
        if isinstance(x, ast.Name) and x.id in mapping:
            x.id = mapping[x.id]
        elif isinstance(x, ast.Attribute) and x.attr in mapping:
            x.attr = mapping[x.attr]
        elif isinstance(x, ast.keyword) and x.arg in mapping:
            x.arg = mapping[x.arg]
        elif isinstance(x, ast.arg) and x.arg in mapping:
            x.arg = mapping[x.arg]
        elif isinstance(x, ast.Constant) and isinstance(x.value, str) and x.value in mapping:
            x.value = mapping[x.value]
    return n


def _is_doc(s):
    return isinstance(s, ast.Expr) and isinstance(s.value, ast.Constant) and isinstance(s.value.value, str)


def flat_statements(body, skip=None):
    """Flatten a block into (text, stmt) pairs; compound statements contribute a header line and their
    bodies (marked with an indentation prefix) so that moved/edited inner statements are found."""
    out = []

    def rec(block, depth):
        for s in block:
            if _is_doc(s) or (skip is not None and skip(s)):
                continue
            if isinstance(s, ast.If):
                out.append(("  " * depth + "if " + norm_text(s.test) + ":", s))
                rec(s.body, depth + 1)
                if s.orelse:
                    out.append(("  " * depth + "else:", s))
                    rec(s.orelse, depth + 1)
            elif isinstance(s, (ast.For, ast.AsyncFor)):
                out.append(("  " * depth + "for " + norm_text(s.target) + " in " + norm_text(s.iter) + ":", s))
                rec(s.body, depth + 1)
            elif isinstance(s, ast.While):
                out.append(("  " * depth + "while " + norm_text(s.test) + ":", s))
                rec(s.body, depth + 1)
            elif isinstance(s, (ast.With, ast.AsyncWith)):
                out.append(("  " * depth + "with " + ", ".join(norm_text(i) for i in s.items) + ":", s))
                rec(s.body, depth + 1)
            elif isinstance(s, ast.Try):
                out.append(("  " * depth + "try:", s))
                rec(s.body, depth + 1)
                for h in s.handlers:
                    out.append(("  " * depth + "except " + (norm_text(h.type) if h.type else "") + ":", h))
                    rec(h.body, depth + 1)
            elif isinstance(s, (ast.FunctionDef, ast.AsyncFunctionDef)):
                out.append(("  " * depth + "def " + s.name + "(" + norm_text(s.args) + "):", s))
                rec(s.body, depth + 1)
            else:
                out.append(("  " * depth + norm_text(s), s))
    rec(body, 0)
    return out


def canon_locals(stmts):
    """Rename the names stored inside the block (locals) to _v0, _v1, ... in order of first store, so that two
    blocks that differ only in the choice of local names compare equal.  Returns new statements."""
    order = []
    for s in stmts:
        for n in ast.walk(s):
            if isinstance(n, ast.Name) and isinstance(n.ctx, ast.Store) and n.id not in order:
                order.append(n.id)
            elif isinstance(n, ast.arg) and False:
                pass
    # walk order of ast.walk is breadth-first; use source position for a stable order
    pos = {}
    for s in stmts:
        for n in ast.walk(s):
            if isinstance(n, ast.Name) and isinstance(n.ctx, ast.Store):
                key = (getattr(n, "lineno", 0), getattr(n, "col_offset", 0))
                if n.id not in pos or key < pos[n.id]:
                    pos[n.id] = key
    names = sorted(pos, key=lambda k: pos[k])
    mapping = {nm: "_v%d" % i for i, nm in enumerate(names)}
    out = []
    for s in stmts:
        c = clone(s)
        for x in ast.walk(c):
            if isinstance(x, ast.Name) and x.id in mapping:
                x.id = mapping[x.id]
        out.append(c)
    return out


def diff_blocks(body_a, body_b, mapping=None, skip=None, canon=True):
    """Differences between block a (renamed by mapping) and block b.
    Returns list of (tag, text_a, stmt_a, text_b, stmt_b) with tag in {'replace','delete','insert'}."""
    mapping = mapping or {}
    ra = [rename(s, mapping) for s in body_a]
    rb = list(body_b)
    if canon:
        ra, rb = canon_locals(ra), canon_locals(rb)
    a = flat_statements(ra, skip)
    a_orig = flat_statements(body_a, skip)
    b_orig = flat_statements(body_b, skip)
    b = flat_statements(rb, skip)
    sm = difflib.SequenceMatcher(a=[t for t, _ in a], b=[t for t, _ in b], autojunk=False)
    out = []
    for tag, i1, i2, j1, j2 in sm.get_opcodes():
        if tag == "equal":
            continue
        ta = [a[i][0] for i in range(i1, i2)]
        tb = [b[j][0] for j in range(j1, j2)]
        sa = a_orig[i1][1] if i1 < i2 and i1 < len(a_orig) else None
        sb = b_orig[j1][1] if j1 < j2 and j1 < len(b_orig) else None
        out.append((tag, ta, sa, tb, sb))
    return out, len(a), len(b)
