"""Alias / effect analysis (design §2.3).

Flow-sensitive may-alias over the CFG of one function.  An abstract value is a
set of (origin, mode):

* origin  ('param', name) | ('self', attr) | ('elem', name)  (element of a
  list/tuple parameter) ; FRESH values have the empty set.
* mode    'alias' (the same object) | 'view' (shares the data buffer / is a
  sub-object such as ``.index``, ``.values``, ``.iloc[...]``)

Mutation sinks on a non-fresh value produce Effect records.  Calls to
in-package functions are applied through bottom-up summaries (depth bound 4).
"""
from __future__ import annotations

import ast
from dataclasses import dataclass

from .astutil import assigned_targets, call_name, const_value, dotted, is_self_attr
from .cfg import CFG
from .frontend import FuncInfo, walk_function

VIEW_ATTRS = {"values", "index", "iloc", "loc", "T", "columns", "at", "iat", "array", "flat", "real", "imag",
              "names", "levels", "codes"}
VIEW_METHODS = {"squeeze", "view", "reshape", "ravel", "transpose", "to_numpy", "swapaxes", "__getitem__",
                "get_level_values"}
VIEW_FUNCS = {"np.asarray", "numpy.asarray", "np.asanyarray", "np.atleast_1d", "np.atleast_2d", "np.ravel",
              "np.squeeze", "np.reshape", "np.transpose", "np.asfarray"}
INPLACE_METHODS = {"sort", "fill", "put", "itemset", "resize", "partition", "update", "insert", "pop", "append",
                   "extend", "remove", "clear", "setdefault", "popitem", "reverse", "setflags", "set_value"}
#   methods which mutate only with inplace=True
INPLACE_KW_METHODS = {"sort_index", "sort_values", "drop", "fillna", "rename", "set_index", "reset_index", "dropna",
                      "rename_axis", "set_names", "replace", "clip", "where", "mask", "interpolate", "ffill", "bfill",
                      "drop_duplicates", "set_axis", "eval", "query", "droplevel", "reorder_levels", "swaplevel"}
MUTABLE_BUILTIN_APPEND = {"append", "extend", "insert", "pop", "remove", "clear", "reverse", "sort"}

FRESH = frozenset()


@dataclass(frozen=True)
class Effect:
    origin: tuple          # ('param', name) / ('self', attr) / ('elem', name)
    mode: str              # alias / view
    kind: str              # 'attr:<dotted attr>' | 'item' | 'aug' | 'call:<method>' | 'del'
    func: str              # function key where the sink sits
    lineno: int
    text: str

    def via(self, origin, mode):
        return Effect(origin, "view" if "view" in (mode, self.mode) else "alias", self.kind, self.func,
                      self.lineno, self.text)


class Effects:
    def __init__(self, prog, max_depth=4):
        self.prog = prog
        self.max_depth = max_depth
        self._summaries = {}
        self._stack = []

    # ------------------------------------------------------------------ abstract evaluation
    def aval(self, e, state, fi):
        if isinstance(e, ast.Name):
            return state.get(e.id, FRESH)
        if is_self_attr(e):
            return frozenset({(("self", e.attr), "alias")})
        if isinstance(e, ast.Attribute):
            v = self.aval(e.value, state, fi)
            if e.attr in VIEW_ATTRS:
                return frozenset((o, "view") for o, m in v)
            return FRESH
        if isinstance(e, ast.Subscript):
            v = self.aval(e.value, state, fi)
            out = set()
            for o, m in v:
                if o[0] == "param" and m == "alias" and o[1] in getattr(self, "_listparams", ()):
                    out.add((("elem", o[1]), "alias"))
                else:
                    out.add((o, "view"))
            return frozenset(out)
        if isinstance(e, ast.IfExp):
            return self.aval(e.body, state, fi) | self.aval(e.orelse, state, fi)
        if isinstance(e, ast.BoolOp):
            out = frozenset()
            for v in e.values:
                out |= self.aval(v, state, fi)
            return out
        if isinstance(e, ast.NamedExpr):
            return self.aval(e.value, state, fi)
        if isinstance(e, ast.Starred):
            return self.aval(e.value, state, fi)
        if isinstance(e, (ast.Tuple, ast.List)):
            out = frozenset()
            for x in e.elts:
                out |= self.aval(x, state, fi)
            return out
        if isinstance(e, (ast.GeneratorExp, ast.ListComp, ast.SetComp)):
            st2 = dict(state)
            self._bind_comprehensions(e, st2, fi)
            return self.aval(e.elt, st2, fi)
        if isinstance(e, ast.Call):
            fn = call_name(e)
            if fn in ("tuple", "list") and len(e.args) == 1:
                return self.aval(e.args[0], state, fi)
            if fn in VIEW_FUNCS and e.args:
                return frozenset((o, "view") for o, m in self.aval(e.args[0], state, fi))
            if fn in ("np.array", "numpy.array") and e.args:
                cp = [k for k in e.keywords if k.arg == "copy"]
                if cp and const_value(cp[0].value) is False:
                    return frozenset((o, "view") for o, m in self.aval(e.args[0], state, fi))
                return FRESH
            if isinstance(e.func, ast.Attribute):
                if e.func.attr in VIEW_METHODS:
                    return frozenset((o, "view") for o, m in self.aval(e.func.value, state, fi))
                if e.func.attr == "copy":
                    return FRESH
            # in-package callee that returns one of its parameters / self attrs unchanged
            ret = self._returns(fi, e, state)
            return ret
        return FRESH

    def _bind_comprehensions(self, root, state, fi):
        """bind the targets of every comprehension inside ``root`` to (views of) the elements of what they iterate"""
        for n in ast.walk(root):
            if isinstance(n, ast.comprehension) and isinstance(n.target, ast.Name):
                it = n.iter
                val = set()
                if isinstance(it, (ast.Tuple, ast.List)):
                    for x in it.elts:
                        val |= set(self.aval(x, state, fi))
                else:
                    for o, m in self.aval(it, state, fi):
                        if o[0] == "param" and m == "alias" and (o[1] in getattr(self, "_listparams", ()) or
                                                                  o[1] == getattr(self, "_vararg", None)):
                            val.add((("elem", o[1]), "alias"))
                        else:
                            val.add((o, "view"))
                state[n.target.id] = state.get(n.target.id, FRESH) | frozenset(val)

    def _returns(self, fi, call, state):
        out = set()
        for key in self.prog.resolve_call(fi, call):
            if key.startswith(("ext:", "class:")) or key not in self.prog.functions:
                continue
            summ = self.summary(self.prog.functions[key])
            if summ is None:
                continue
            binding = self._bind(self.prog.functions[key], call, state, fi)
            for o, m in summ["returns"]:
                if o[0] in ("param", "elem") and o[1] in binding:
                    for o2, m2, _shape in binding[o[1]]:
                        out.add((o2, "view" if "view" in (m, m2) else "alias"))
                elif o[0] == "self":
                    recv = self._receiver(call, state, fi)
                    if recv is None:
                        out.add((o, m))
        return frozenset(out)

    def _receiver(self, call, state, fi):
        f = call.func
        if isinstance(f, ast.Attribute) and isinstance(f.value, ast.Name) and f.value.id == "self":
            return None    # same object
        return "other"

    def _bind(self, callee: FuncInfo, call, state, fi):
        params = callee.params
        if callee.cls is not None and params and params[0] in ("self", "cls"):
            params = params[1:]
        binding = {}
        va = callee.node.args.vararg.arg if getattr(callee.node, "args", None) is not None and callee.node.args.vararg else None
        for i, a in enumerate(call.args):
            if i < len(params) and params[i] != va:
                binding[params[i]] = self._arg_aval(a, state, fi)
            elif va:
                binding[va] = binding.get(va, frozenset()) | frozenset((o, m, "elem") for o, m in self.aval(a, state, fi))
        for k in call.keywords:
            if k.arg:
                binding[k.arg] = self._arg_aval(k.value, state, fi)
        return binding

    def _arg_aval(self, a, state, fi):
        if isinstance(a, (ast.List, ast.Tuple)):
            out = set()
            for x in a.elts:
                for o, m in self.aval(x, state, fi):
                    out.add((o, m, "elem"))
            return frozenset(out)
        return frozenset((o, m, "obj") for o, m in self.aval(a, state, fi))

    # ------------------------------------------------------------------ per-function analysis
    def analyse(self, fi: FuncInfo):
        """-> (effects list, returns aval, states per cfg node)"""
        cfg = CFG(fi.node)
        params = [p for p in fi.params if p not in ("self", "cls")]
        va = fi.node.args.vararg.arg if getattr(fi.node, "args", None) is not None and fi.node.args.vararg else None
        self._vararg = va
        if va and va not in params:
            params = params + [va]
        init = {p: frozenset({(("param", p), "alias")}) for p in params}
        # closures: free variables of nested functions refer to the parent's params
        if fi.parent is not None:
            pparams = [p for p in fi.parent.params if p not in ("self", "cls")]
            for p in pparams:
                init.setdefault(p, frozenset({(("param", p), "alias")}))
        self._listparams = self._list_params(fi)
        IN = {n: None for n in cfg.nodes()}
        IN[cfg.entry] = init
        work = [cfg.entry]
        effects = []
        seen_eff = set()
        returns = set()
        it = 0
        while work:
            it += 1
            if it > 20000:
                break
            n = work.pop(0)
            state = dict(IN[n])
            s = cfg.stmt[n]
            if s is not None:
                if cfg.kind[n] == "handler":
                    if s.name:
                        state[s.name] = FRESH
                else:
                    self._transfer(s, state, fi, cfg.kind[n], effects, seen_eff, returns)
            for d, _ in cfg.succ[n]:
                old = IN[d]
                if old is None:
                    IN[d] = dict(state)
                    work.append(d)
                else:
                    changed = False
                    for k, v in state.items():
                        nv = old.get(k, FRESH) | v
                        if nv != old.get(k, None):
                            old[k] = nv
                            changed = True
                    if changed and d not in work:
                        work.append(d)
        return effects, frozenset(returns), IN, cfg

    def _list_params(self, fi):
        """parameters that are iterated / subscripted as containers of objects"""
        out = set()
        for n in walk_function(fi.node):
            if isinstance(n, (ast.For, ast.comprehension)) and isinstance(n.iter, ast.Name) and n.iter.id in fi.params:
                out.add(n.iter.id)
        return out

    def _sink(self, target_val, kind, stmt, fi, effects, seen):
        for o, m in target_val:
            key = (o, m, kind, getattr(stmt, "lineno", 0))
            if key in seen:
                continue
            seen.add(key)
            from .report import norm_text
            effects.append(Effect(o, m, kind, fi.key, getattr(stmt, "lineno", 0), norm_text(stmt)[:200]))

    def _store_target(self, t, stmt, state, fi, effects, seen, aug=False):
        if isinstance(t, ast.Name):
            if aug:
                v = state.get(t.id, FRESH)
                self._sink(v, "aug", stmt, fi, effects, seen)
            return
        if isinstance(t, ast.Attribute):
            if is_self_attr(t):
                return   # rebinding an attribute of self: not a mutation of a caller object
            base = self.aval(t.value, state, fi)
            # path of attributes from the aliased object
            path = [t.attr]
            e = t.value
            while isinstance(e, ast.Attribute) and not is_self_attr(e):
                path.append(e.attr)
                e = e.value
            self._sink(base, "attr:" + ".".join(reversed(path)), stmt, fi, effects, seen)
            return
        if isinstance(t, ast.Subscript):
            base = self.aval(t.value, state, fi)
            self._sink(base, "item", stmt, fi, effects, seen)

    def _transfer(self, s, state, fi, kind, effects, seen, returns):
        # calls anywhere in the statement (mutating methods, callee summaries)
        exprs = []
        if kind in ("test", "loop"):
            exprs = [s.test] if hasattr(s, "test") else [s.iter]
        elif isinstance(s, (ast.FunctionDef, ast.AsyncFunctionDef, ast.ClassDef)):
            exprs = []
        elif isinstance(s, (ast.With, ast.AsyncWith)):
            exprs = [i.context_expr for i in s.items]
        else:
            exprs = [s]
        for ex in exprs:
            if any(isinstance(n, ast.comprehension) for n in ast.walk(ex)):
                st2 = dict(state)
                self._bind_comprehensions(ex, st2, fi)
            else:
                st2 = state
            for c in [n for n in ast.walk(ex) if isinstance(n, ast.Call)]:
                self._call_effects(c, s, st2, fi, effects, seen)
        if isinstance(s, ast.Assign):
            for t in s.targets:
                self._assign(t, s.value, s, state, fi, effects, seen)
        elif isinstance(s, ast.AnnAssign) and s.value is not None:
            self._assign(s.target, s.value, s, state, fi, effects, seen)
        elif isinstance(s, ast.AugAssign):
            self._store_target(s.target, s, state, fi, effects, seen, aug=True)
        elif isinstance(s, ast.Delete):
            for t in s.targets:
                if isinstance(t, ast.Subscript):
                    self._sink(self.aval(t.value, state, fi), "del", s, fi, effects, seen)
        elif isinstance(s, (ast.For, ast.AsyncFor)) and kind == "loop":
            it = self.aval(s.iter, state, fi)
            val = set()
            for o, m in it:
                if o[0] == "param" and m == "alias":
                    val.add((("elem", o[1]), "alias"))
                else:
                    val.add((o, "view"))
            if isinstance(s.iter, (ast.List, ast.Tuple)):
                for x in s.iter.elts:
                    val |= set(self.aval(x, state, fi))
            for t in assigned_targets(s):
                if isinstance(t, ast.Name):
                    state[t.id] = frozenset(val)
        elif isinstance(s, (ast.With, ast.AsyncWith)):
            for i in s.items:
                if isinstance(i.optional_vars, ast.Name):
                    state[i.optional_vars.id] = FRESH
        elif isinstance(s, ast.Return) and s.value is not None:
            vals = s.value.elts if isinstance(s.value, ast.Tuple) else [s.value]
            for v in vals:
                returns.update(self.aval(v, state, fi))

    def _assign(self, t, value, stmt, state, fi, effects, seen):
        if isinstance(t, (ast.Tuple, ast.List)):
            if isinstance(value, (ast.Tuple, ast.List)) and len(value.elts) == len(t.elts):
                vals = [self.aval(v, state, fi) for v in value.elts]
                for tt, vv in zip(t.elts, vals):
                    self._assign_val(tt, vv, stmt, state, fi, effects, seen)
            else:
                v = self.aval(value, state, fi)
                for tt in t.elts:
                    self._assign_val(tt, v, stmt, state, fi, effects, seen)
            return
        self._assign_val(t, self.aval(value, state, fi), stmt, state, fi, effects, seen)

    def _assign_val(self, t, v, stmt, state, fi, effects, seen):
        if isinstance(t, ast.Name):
            state[t.id] = v
            state.pop("@obj:" + t.id, None)
            val = getattr(stmt, "value", None)
            if isinstance(val, ast.Call) and isinstance(stmt, ast.Assign) and len(stmt.targets) == 1 \
                    and stmt.targets[0] is t:
                k = self.prog.resolve_expr_to_key(fi.module, val.func, scope=fi)
                if k in self.prog.classes:
                    init = self.prog.lookup_method(self.prog.classes[k], "__init__")
                    binding = self._bind(init, val, state, fi) if init else {}
                    state["@obj:" + t.id] = frozenset({(k, tuple(sorted((a, b) for a, b in binding.items())))})
        elif isinstance(t, ast.Starred):
            self._assign_val(t.value, v, stmt, state, fi, effects, seen)
        else:
            self._store_target(t, stmt, state, fi, effects, seen)

    def _call_effects(self, c, stmt, state, fi, effects, seen):
        f = c.func
        if isinstance(f, ast.Attribute):
            recv = self.aval(f.value, state, fi)
            inplace = any(k.arg == "inplace" and const_value(k.value) is True for k in c.keywords)
            if recv:
                if f.attr in INPLACE_KW_METHODS and inplace:
                    self._sink(recv, "call:%s(inplace=True)" % f.attr, stmt, fi, effects, seen)
                elif f.attr in INPLACE_METHODS:
                    # python-list style mutators are only meaningful on containers held by self;
                    # pandas Index.append / Series.append return new objects
                    r2 = recv if f.attr not in MUTABLE_BUILTIN_APPEND else \
                        frozenset((o, m) for o, m in recv if o[0] == "self" and m == "alias")
                    self._sink(r2, "call:" + f.attr, stmt, fi, effects, seen)
            out_kw = [k for k in c.keywords if k.arg == "out"]
            for k in out_kw:
                self._sink(self.aval(k.value, state, fi), "call:out=", stmt, fi, effects, seen)
        # method call on a local object of an in-package class
        if isinstance(f, ast.Attribute) and isinstance(f.value, ast.Name) and ("@obj:" + f.value.id) in state:
            for ck, binding_t in state["@obj:" + f.value.id]:
                ci = self.prog.classes[ck]
                callee = self.prog.lookup_method(ci, f.attr)
                if callee is None:
                    continue
                summ = self.summary(callee)
                if summ is None:
                    continue
                binding = dict(binding_t)
                prov = self.attr_provenance(ci)
                for eff in summ["effects"]:
                    if eff.origin[0] != "self":
                        continue
                    for (po, pm) in prov.get(eff.origin[1], ()):
                        if po[0] == "param" and po[1] in binding:
                            for o2, m2, shape in binding[po[1]]:
                                e2 = eff.via(o2, "view" if "view" in (pm, m2) else m2)
                                key2 = (e2.origin, e2.mode, e2.kind, e2.lineno, e2.func)
                                if key2 not in seen:
                                    seen.add(key2)
                                    effects.append(e2)
        # closure: a nested function of this function called by name; its writes to free variables are writes to this
        # function's variables of the same name
        if isinstance(f, ast.Name):
            callee = self.prog.functions.get(fi.key + "." + f.id)
            if callee is not None:
                summ = self.summary(callee)
                own = set(callee.params)
                for eff in (summ["effects"] if summ else ()):
                    if eff.origin[0] in ("param", "elem") and eff.origin[1] not in own:
                        for o2, m2 in state.get(eff.origin[1], FRESH):
                            e2 = eff.via(o2, m2)
                            key2 = (e2.origin, e2.mode, e2.kind, e2.lineno, e2.func)
                            if key2 not in seen:
                                seen.add(key2)
                                effects.append(e2)
        # callee summaries
        for key in self.prog.resolve_call(fi, c):
            if key.startswith(("ext:", "class:")) or key not in self.prog.functions:
                continue
            callee = self.prog.functions[key]
            summ = self.summary(callee)
            if summ is None:
                continue
            binding = self._bind(callee, c, state, fi)
            for eff in summ["effects"]:
                o = eff.origin
                if o[0] in ("param", "elem") and o[1] in binding:
                    for o2, m2, shape in binding[o[1]]:
                        if (o[0] == "elem") != (shape == "elem"):
                            if not (o[0] == "param" and shape == "elem"):
                                continue
                        e2 = eff.via(o2, m2)
                        key2 = (e2.origin, e2.mode, e2.kind, e2.lineno, e2.func)
                        if key2 not in seen:
                            seen.add(key2)
                            effects.append(e2)
                elif o[0] == "self":
                    # effect on the callee's self: same object if called on self, else on the receiver value
                    if isinstance(c.func, ast.Attribute) and isinstance(c.func.value, ast.Name) and \
                            c.func.value.id == "self":
                        key2 = (eff.origin, eff.mode, eff.kind, eff.lineno, eff.func)
                        if key2 not in seen:
                            seen.add(key2)
                            effects.append(eff)
                    else:
                        # constructor / method on another object: map its self attrs through the class's
                        # attribute provenance (attr <- ctor param)
                        prov = self.attr_provenance(callee.cls) if callee.cls else {}
                        init = self.prog.lookup_method(callee.cls, "__init__") if callee.cls else None
                        for (po, pm) in prov.get(o[1], ()):
                            if po[0] == "param" and init is not None and key == init.key and po[1] in binding:
                                for o2, m2, shape in binding[po[1]]:
                                    e2 = eff.via(o2, "view" if "view" in (pm, m2) else m2)
                                    key2 = (e2.origin, e2.mode, e2.kind, e2.lineno, e2.func)
                                    if key2 not in seen:
                                        seen.add(key2)
                                        effects.append(e2)

    def _pandas_like(self, e):
        return False

    # ------------------------------------------------------------------ summaries
    def summary(self, fi: FuncInfo):
        if fi.key in self._summaries:
            return self._summaries[fi.key]
        if fi.key in self._stack or len(self._stack) >= self.max_depth:
            return None
        self._stack.append(fi.key)
        try:
            saved = getattr(self, "_listparams", set())
            saved_va = getattr(self, "_vararg", None)
            effects, returns, _, _ = self.analyse(fi)
            self._listparams = saved
            self._vararg = saved_va
        finally:
            self._stack.pop()
        summ = {"effects": effects, "returns": returns}
        self._summaries[fi.key] = summ
        return summ

    def attr_provenance(self, ci):
        """self.<attr> -> aval of what is stored into it anywhere in the class (params of that method)."""
        cache = getattr(self, "_prov", None)
        if cache is None:
            cache = self._prov = {}
        if ci.key in cache:
            return cache[ci.key]
        out = {}
        cache[ci.key] = out
        for c in self.prog.mro(ci):
            for name, defs in c.methods.items():
                fi = defs[-1]
                _, _, IN, cfg = self.analyse(fi)
                for n in cfg.nodes():
                    s = cfg.stmt[n]
                    if isinstance(s, ast.Assign) and IN.get(n) is not None and cfg.kind[n] == "stmt":
                        for t in s.targets:
                            if is_self_attr(t):
                                v = self.aval(s.value, IN[n], fi)
                                out.setdefault(t.attr, set()).update(v)
        return out
